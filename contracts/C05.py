"""C05 Operator-tree optimisation preserves semantics.

Contract (from the property) of `optimise_operator(op)` and of its core `_optimise_operator(deepcopy(op))`:
    ensures  result.domain is op.domain, result.target is op.target
             result(x) == op(x)  and  result(Lin(x)).jac == op(Lin(x)).jac  (forward and adjoint)   for every x
             op itself is left usable and unchanged (optimise_operator works on a deep copy)
`_optimise_operator` rewrites a heap graph in place, keyed by id(), through closures and setattr: no invariant over that graph
is attempted (outside reach).  Instead Engine O decides the post-condition *for all input values* on enumerated trees: the real
optimiser runs on the real operator objects (its allclose self-check sees floats), then original and optimised operator are both
executed on a symbolic linearization and compared as sympy identities.  Bounded in the tree skeletons, universal in the inputs.
"""
import random
from copy import deepcopy

import numpy as np
import sympy as sp

from vf import objx
from vf.objx import SX
from vf.ofield import MultiWorld, all_equal, flat, sym_like

META = dict(
    title="Operator-tree optimisation preserves semantics",
    level="other",
    design_ref="DESIGN.md section 4, C05",
    technique="post-condition of optimise_operator/_optimise_operator (same domain and target objects, value, Jacobian and adjoint "
              "Jacobian identical to the original) decided as symbolic identities: the real optimiser runs on generated operator "
              "trees with shared leaves, partially common leaf chains and shared subtrees, then original and result are executed "
              "on fields of sympy symbols (Engine O) and compared for all inputs",
    text="For every generated operator tree (sums, products, differences and point-wise chains over up to three input keys, with "
         "leaves shared as whole objects, leaf chains with common prefixes of every length, shared inner nodes and shared subtrees "
         "under diverging parents, single- and multi-domain targets) the optimised operator has the identical domain and target "
         "objects and the same value, Jacobian and adjoint Jacobian as the original for all inputs; the original stays unchanged.",
    note="Bounded in skeleton: the hand-written catalogue plus seeded random trees (40 quick / 400 thorough, depth <= 5, 2-pixel "
         "spaces, <= 3 keys); universal in the input values. No invariant over the id()-keyed in-place graph rewrite is attempted, so "
         "nothing here is counted as a proof.",
    explanation="level 'other': bounded in the tree enumeration (B-shape), universal in values",
)

N = 2
FUNCS = ["exp", "sin", "tanh", "sigmoid", "cos", "arctan"]


def _compare(chk, W, label, op, opt, what):
    """domain/target identity, value, Jacobian, adjoint Jacobian of opt against op, symbolically"""
    ift = W.ift
    ok = opt.domain is op.domain and opt.target is op.target
    chk.obligation(f"{label}: {what}: domain and target are the original objects", "discharged" if ok else "refuted", backend="identity",
                   detail="" if ok else f"domain {opt.domain} vs {op.domain}; target {opt.target} vs {op.target}")
    if not ok:
        return False
    keys = tuple(sorted(op.domain.keys()))
    box = W.box()
    with SX.concolic(W.shadow) as pc:
        x = W.part(keys)
        v0, v1 = op(x), opt(x)
        l0 = op(ift.Linearization.make_var(x))
        l1 = opt(ift.Linearization.make_var(x))
        t, _ = W.tangent(keys)
        j0, j1 = l0.jac(t), l1.jac(t)
        s = sym_like(ift, l0.jac.target, "s", real=True)
        a0, a1 = l0.jac.adjoint_times(s), l1.jac.adjoint_times(s)
        pc = list(pc)
    r = all_equal(chk, f"{label}: {what}: value == original value", flat(v1), flat(v0), pc=pc, domain=box)
    r &= all_equal(chk, f"{label}: {what}: value on a linearization == original value", flat(l1.val), flat(v0), pc=pc, domain=box)
    r &= all_equal(chk, f"{label}: {what}: Jacobian == original Jacobian", flat(j1), flat(j0), pc=pc, domain=box)
    r &= all_equal(chk, f"{label}: {what}: adjoint Jacobian == original adjoint Jacobian", flat(a1), flat(a0), pc=pc, domain=box)
    return r


def _check_tree(chk, W, label, op, group, reopt=False):
    from nifty.cl.operator_tree_optimiser import _optimise_operator, optimise_operator
    ift = W.ift
    label = f"{group}: {label}"
    keys = tuple(sorted(op.domain.keys()))
    with SX.concolic(W.shadow):
        before = flat(op(W.part(keys)))
    # the core on a deep copy (what optimise_operator does before its self-check)
    try:
        core = _optimise_operator(deepcopy(op))
    except Exception as e:  # noqa: BLE001
        chk.obligation(f"{label}: _optimise_operator(deepcopy(op)) returns an operator", "refuted", backend="native", detail=f"{type(e).__name__}: {e}"[:300], model=dict(tree=label))
        return
    _compare(chk, W, label, op, core, "_optimise_operator(deepcopy(op))")
    # the public entry point (float self-check inside)
    ift.random.push_sseq_from_seed(11)
    try:
        try:
            pub = optimise_operator(op)
        except (AssertionError, ValueError) as e:
            chk.obligation(f"{label}: optimise_operator returns an operator (its own self-check accepts the result)", "refuted",
                           backend="native", detail=f"optimise_operator(op) raised {type(e).__name__}: the optimised tree differs from the "
                           "original at the self-check's random input (AssertionError) or is defined on another domain (ValueError)",
                           model=dict(tree=label))
            pub = None
        else:
            chk.obligation(f"{label}: optimise_operator returns an operator (its own self-check accepts the result)", "discharged", backend="native")
    finally:
        ift.random.pop_sseq()
    if pub is not None:
        _compare(chk, W, label, op, pub, "optimise_operator(op)")
    if pub is not None and reopt:
        # optimising an optimised tree (placeholders, re-inserted sub-trees and shortened chains of the first pass are its input);
        # only for the catalogue: its labels are deterministic, so that a listed finding stays identifiable under every VERIF_SEED
        try:
            again = _optimise_operator(deepcopy(pub))
        except Exception as e:  # noqa: BLE001
            chk.obligation(f"{label}: an optimised tree can be optimised again", "refuted", backend="native", detail=f"{type(e).__name__}: {e}"[:300])
        else:
            _compare(chk, W, label, op, again, "_optimise_operator(optimise_operator(op))")
    with SX.concolic(W.shadow) as pc:
        after = flat(op(W.part(keys)))
        pc = list(pc)
    all_equal(chk, f"{label}: the original operator is unchanged by the optimisation", after, before, pc=pc, domain=W.box())


def _catalogue(ift, W):
    a, b, c = (ift.FieldAdapter(W.dt, k) for k in "abc")
    D = ift.makeOp(ift.makeField(W.dom, np.array([0.5, -1.5])))
    base = a.exp()
    ea, eb = a.exp(), b.sin()
    l1, l2, l3 = base.sin(), base.tanh(), base.sin().cos()
    n1 = ea * eb
    n2 = (ea + eb).tanh()
    uni = a.sigmoid()
    uni_add = uni + uni
    sub = (a.exp() * b.tanh()) + c
    T = {
        "leaf*leaf + leaf (whole-object sharing)": ea * ea + ea,
        "common prefix, diverging at position 2: sin(exp a) * tanh(exp a)": l1 * l2,
        "common prefix with a longer tail: sin(exp a) + cos(sin(exp a))... + tanh(exp a)": l1 + l3 + l2,
        "three leaves, two prefix lengths": l1 * l3 + l2 * l1.tanh(),
        "shared inner node used twice: n*n + n": n1 * n1 + n1,
        "shared node under point-wise chains: tanh(n) * sin(n)": n1.tanh() * n1.sin(),
        "shared subtree under diverging parents": (n2.exp() + c) * (n2.sin() - c),
        "docstring example: (u+u)*(u+u)": uni_add * uni_add,
        "shared subtree and shared leaves together": (sub * sub) + sub.exp() + (ea * c),
        "linear operator above a shared leaf: D(exp a) + exp a * D(exp a)": D @ ea + ea * (D @ ea),
        "no sharing at all": a.exp() * b.sin() + c.tanh(),
        "multi-domain target: {u: n*n, v: n + c}": (n1 * n1).ducktape_left("u") + (n1 + c).ducktape_left("v"),
        "leaf shared between a sum and a product of different depth": (ea + (ea * eb).sin()) * (eb - ea),
        "one chain a full prefix of the other: exp a * sin(exp a)": base * l1,
        "difference of partially common chains": l1 - l2 + (l1 * l2),
    }
    nn = c.arctan() + b.sin()
    mm = nn * a
    T["nested shared subtrees: m*m + n with m = n*a, n = arctan c + sin b"] = mm * mm + nn
    T["nested shared subtrees under chains: exp(m) + m + n"] = mm.exp() + mm + nn
    # a shared sub-operator with a multi-domain target, used under two different heads
    X = a.exp().ducktape_left("u") + b.sin().ducktape_left("v")
    u, v = ift.FieldAdapter(W.dt, "u"), ift.FieldAdapter(W.dt, "v")
    T["shared multi-domain-valued sub-operator: (u*v)(X) + tanh(u+v)(X) with X = {u: exp a, v: sin b}"] = (u * v) @ X + (u + v).tanh() @ X
    return T


def sec_catalogue(chk):
    import nifty.cl as ift
    from nifty.cl import operator_tree_optimiser as oto
    chk.under_contract(oto._optimise_operator)
    chk.under_contract(oto.optimise_operator)
    with objx.patched():
        W = MultiWorld(ift, ("a", "b", "c"), n=N, sign="real")
        for name, op in _catalogue(ift, W).items():
            _check_tree(chk, W, name, op, "catalogue", reopt=True)


def sec_same_chain_twice(chk):
    """the same chain object in two slots of the tree (leaf of a partially common group; chain above a shared node)"""
    import nifty.cl as ift
    with objx.patched():
        W = MultiWorld(ift, ("a",), n=N, sign="real")
        a = ift.FieldAdapter(W.dt, "a")
        base = a.exp()
        l1, l3 = base.exp(), base.tanh()
        _check_tree(chk, W, "l1*l1 + l3 with l1 = exp(exp a), l3 = tanh(exp a)", l1 * l1 + l3, "same_chain_twice")
        b = ift.FieldAdapter(W.dt, "a").sin()
        n = a.arctan() * b
        q = (n.sin()).sigmoid()
        _check_tree(chk, W, "q*q + sin(n): the same chain above a shared node in two slots", q * q + n.sin(), "same_chain_twice")


def _random_tree(ift, W, rnd, allow_same_chain_twice=False):
    """grow a pool of operators by random composition; operands are re-used by identity (sharing)"""
    ad = {k: ift.FieldAdapter(W.dt, k) for k in W.keys}
    D = ift.makeOp(ift.makeField(W.dom, np.array([0.5, -1.5])))
    pool, desc = [], []
    for k in rnd.sample(list(W.keys), rnd.randint(1, 3)):
        f = rnd.choice(FUNCS)
        pool.append(getattr(ad[k], f)())
        desc.append(f"{f}({k})")
    steps = rnd.randint(3, 8)
    for _ in range(steps):
        kind = rnd.choice(["ptw", "ptw", "bin", "bin", "bin", "lin"])
        if kind == "ptw":
            i = rnd.randrange(len(pool))
            f = rnd.choice(FUNCS)
            pool.append(getattr(pool[i], f)())
            desc.append(f"{f}[{i}]")
        elif kind == "lin":
            i = rnd.randrange(len(pool))
            pool.append(D @ pool[i])
            desc.append(f"D[{i}]")
        else:
            i, j = rnd.randrange(len(pool)), rnd.randrange(len(pool))
            o = rnd.choice("+*-")
            pool.append({"+": lambda p, q: p + q, "*": lambda p, q: p * q, "-": lambda p, q: p - q}[o](pool[i], pool[j]))
            desc.append(f"[{i}]{o}[{j}]")
    # the result: combine the last few pool entries so that earlier ones are shared
    top = pool[-1]
    for _ in range(rnd.randint(1, 2)):
        j = rnd.randrange(len(pool))
        o = rnd.choice("+*")
        top = top + pool[j] if o == "+" else top * pool[j]
        desc.append(f"top{o}[{j}]")
    return top, "; ".join(desc)


def _has_same_chain_twice(op):
    """does the same _OpChain object occur as a direct operand of two node slots?  (the known-finding shape)"""
    from nifty.cl.operators.operator import _OpChain, _OpProd, _OpSum
    seen, dup, visited = set(), [False], set()

    def walk(o):
        if id(o) in visited:
            return
        visited.add(id(o))
        kids = []
        if isinstance(o, (_OpSum, _OpProd)):
            kids = [o._op1, o._op2]
            for k in kids:
                if isinstance(k, _OpChain) and not any(isinstance(q, (_OpSum, _OpProd)) for q in k._ops):
                    if id(k) in seen:
                        dup[0] = True
                    seen.add(id(k))
        elif isinstance(o, _OpChain):
            kids = list(o._ops)
        for k in kids:
            walk(k)
    walk(op)
    return dup[0]


NPART = 8            # the random trees are generated in NPART independent streams (sections run in parallel processes)


def _random_part(chk, part):
    import nifty.cl as ift
    count = (40 if chk.tier == "quick" else 400) // NPART
    rnd = random.Random(1000 + chk.seed + 7919 * part)
    with objx.patched():
        W = MultiWorld(ift, ("a", "b", "c"), n=N, sign="real")
        done = skipped = 0
        tries = 0
        while done < count and tries < 20 * count:
            tries += 1
            op, d = _random_tree(ift, W, rnd)
            if not hasattr(op.domain, "keys"):
                continue
            if _has_same_chain_twice(op):
                skipped += 1        # counted only: the same chain object sits in two slots of the tree (edited in place by the optimiser)
            _check_tree(chk, W, f"#{part}.{done} {d}", op, "random")
            done += 1
        chk.note(f"random trees: {done} checked, {skipped} of them with the same leaf-chain object in two slots of the tree")


def _native(ob):
    import json
    import os
    import subprocess
    import sys
    here = os.path.dirname(os.path.abspath(__file__))
    p = subprocess.run([sys.executable, os.path.join(here, "native", "C05_native.py")], capture_output=True, text=True, timeout=600)
    try:
        return json.loads(p.stdout.strip().splitlines()[-1])
    except Exception:  # noqa: BLE001
        return dict(reproduced=False, error=p.stderr[-500:])


REPLAY = {"same_chain_twice": _native, "nested shared subtrees": _native, "difference of partially common chains": _native}

def _mk_random(part):
    def sec(chk):
        return _random_part(chk, part)
    sec.__name__ = f"sec_random_{part}"
    return sec


SECTIONS = [sec_catalogue, sec_same_chain_twice] + [_mk_random(k) for k in range(NPART)]
