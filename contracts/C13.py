"""C13 Gaussian sampling from covariance operators has the right covariance.

Engine O with z3 elements: the installed operator classes run unmodified on fields whose entries are symbols;
Random.normal is re-bound to fresh white-noise symbols xi, so every draw_sample returns a *linear form* R xi.
Obligations (for all operator entries that satisfy the path condition): the sample has no constant term, is linear
in xi, and R R^T equals the dense matrix of the operator (resp. R R^T . dense == 1 when drawing from the inverse).
With lemma L-COV (Cov(R xi) = R R^T for white xi) this is the covariance statement; no statistics involved.
"""
import numpy as np
import z3

from vf import objx, symx
from vf.symx import Ctx, SymBool, SymReal, fresh_real, implies, sand, sor, snot

META = dict(
    title="Gaussian sampling from covariance operators has the right covariance",
    level="other",
    design_ref="DESIGN.md section 4, C13",
    technique="the real operator classes executed on symbolic fields (NumPy object arrays of z3 terms), white noise as "
              "symbols; post-condition 'R R^T == operator matrix' of every draw_sample discharged by z3 for all entries",
    text="For scaling, diagonal (incl. inverse/adjoint views), sandwich, sum, block-diagonal operators and the sampling "
         "enabler the sample returned by the real draw_sample is proved to be a zero-mean linear form R xi in the white-noise "
         "symbols with R R^T equal to the operator's dense matrix (its inverse for from_inverse), for every value of the "
         "operator's entries; non-positive operators are proved to refuse.",
    note="Bounded in skeleton: 2 pixels per space, the enumerated operator constructions; universal in all entries. Lemma "
         "L-COV (Cov(R xi) = R R^T). For the sampling enabler the inner conjugate gradient is replaced by an exact solve "
         "(A-CGEXACT). Real sampling dtype; for complex dtypes only the structure 'independent real and imaginary parts, each "
         "with the real-case covariance' of Random.normal is checked natively. Finite-sample statistics are not checked.",
    explanation="level 'other': every obligation is discharged by z3 for all operator entries, but only for the enumerated "
                "operator skeletons on a 2-pixel domain (B-shape); counted as obligations because within a skeleton the "
                "statement is universal",
)

T_ = SymBool(z3.BoolVal(True))
F_ = SymBool(z3.BoolVal(False))
N = 2


def _b(x):
    return x if isinstance(x, SymBool) else SymBool(z3.BoolVal(bool(x)))


def _R(x):
    if isinstance(x, (SymReal, symx.SymInt)):
        return x
    return SymReal(symx._frac(float(x)))


def _check_sample(ctx, noise, sample_vec, target, what, inverse=False):
    """sample_vec: list of elements; target: dense matrix (nested list) of the operator"""
    n = len(sample_vec)
    rows = []
    for i, e in enumerate(sample_vec):
        e = _R(e)
        base, cs = noise.coeffs(e)
        ctx.prove(SymBool(base == 0) & noise.linear(e), f"{what}: the sample is a zero-mean linear form in the white noise")
        rows.append(cs)
    cov = [[SymReal(z3.simplify(sum((rows[i][k] * rows[j][k] for k in range(len(noise.src))), z3.RealVal(0))))
            for j in range(n)] for i in range(n)]
    if not inverse:
        ok = sand(*[cov[i][j] == _R(target[i][j]) for i in range(n) for j in range(n)])
        ctx.prove(ok, f"{what}: R R^T equals the operator matrix (covariance == operator)")
    else:
        prods = []
        for i in range(n):
            for k in range(n):
                s = _R(0.)
                for j in range(n):
                    s = s + cov[i][j] * _R(target[j][k])
                prods.append(s == (1 if i == k else 0))
        ctx.prove(sand(*prods), f"{what}: R R^T times the operator matrix is the identity (covariance == inverse operator)")


def _setup():
    import nifty.cl as ift
    objx.install_z3_elements()
    dom = ift.UnstructuredDomain(N)
    return ift, dom, ift.DomainTuple.make(dom)


def sec_scaling(chk):
    ift, dom, dt = _setup()
    from nifty.cl.operators.scaling_operator import ScalingOperator
    chk.under_contract(ScalingOperator.draw_sample)
    chk.under_contract(ScalingOperator._get_fct)
    chk.lemma("L-COV: Cov(R xi) = R R^T for white noise xi")
    for inv in (False, True):
        def run(ctx, inv=inv):
            noise = objx.Noise()
            a = fresh_real("a")
            with objx.patched(noise):
                op = ScalingOperator(dt, a, sampling_dtype=float)
                try:
                    s = op.draw_sample(from_inverse=inv)
                except ValueError:
                    ctx.prove((a <= 0) if inv else (a < 0), "ScalingOperator: refuses only non-positive-definite factors")
                    ctx.cover("refused")
                    return
                ctx.prove((a > 0) if inv else (a >= 0), "ScalingOperator: samples only for admissible factors")
                target = [[a if i == j else 0. for j in range(N)] for i in range(N)]
                _check_sample(ctx, noise, list(s.asnumpy().reshape(-1)), target, "ScalingOperator", inverse=inv)
                ctx.cover("sampled")
        chk.explore(run, tag="from_inverse" if inv else "forward", covers=["refused", "sampled"])

    def run_nodtype(ctx):
        op = ScalingOperator(dt, 2.0)
        try:
            op.draw_sample()
            ctx.prove(F_, "ScalingOperator without sampling dtype refuses to sample")
        except RuntimeError:
            ctx.prove(T_, "ScalingOperator without sampling dtype refuses to sample")
    chk.explore(run_nodtype, tag="nodtype")


def sec_diagonal(chk):
    ift, dom, dt = _setup()
    from nifty.cl.operators.diagonal_operator import DiagonalOperator
    chk.under_contract(DiagonalOperator.draw_sample)
    chk.under_contract(DiagonalOperator.process_sample)
    chk.lemma("L-COV")
    views = {"D": lambda D: D, "D.inverse": lambda D: D.inverse, "D.adjoint": lambda D: D.adjoint,
             "D.adjoint.inverse": lambda D: D.adjoint.inverse}
    for vname, view in views.items():
        for inv in (False, True):
            def run(ctx, view=view, vname=vname, inv=inv):
                noise = objx.Noise()
                with objx.patched(noise):
                    d = objx.sym_array((N,), "d")
                    D = DiagonalOperator(ift.Field(dt, d), sampling_dtype=float)
                    op = view(D)
                    eff_inverse = inv ^ ("inverse" in vname)        # covariance of the sample is diag(d)^-1 ?
                    try:
                        s = op.draw_sample(from_inverse=inv)
                    except ValueError:
                        bad = sor(*[(x <= 0) if eff_inverse else (x < 0) for x in d])
                        ctx.prove(bad, f"DiagonalOperator ({vname}): refuses only if an entry is not admissible")
                        ctx.cover("refused")
                        return
                    ctx.prove(sand(*[(x > 0) if eff_inverse else (x >= 0) for x in d]),
                              f"DiagonalOperator ({vname}): samples only if every entry is admissible")
                    target = [[d[i] if i == j else 0. for j in range(N)] for i in range(N)]
                    _check_sample(ctx, noise, list(s.asnumpy().reshape(-1)), target, f"DiagonalOperator ({vname})",
                                  inverse=eff_inverse)
                    ctx.cover("sampled")
            chk.explore(run, tag=f"{vname}/{'from_inverse' if inv else 'forward'}", covers=["refused", "sampled"])


def _dense(op, dt, n, mode="times"):
    import nifty.cl as ift
    cols = []
    for i in range(n):
        e = np.zeros(n)
        e[i] = 1.
        cols.append(list(getattr(op, mode)(ift.Field(dt, e)).asnumpy().reshape(-1)))
    return [[cols[j][i] for j in range(n)] for i in range(n)]


def sec_sandwich_sum(chk):
    ift, dom, dt = _setup()
    from nifty.cl.operators.sandwich_operator import SandwichOperator
    from nifty.cl.operators.sum_operator import SumOperator
    chk.under_contract(SandwichOperator.draw_sample)
    chk.under_contract(SumOperator.draw_sample)
    chk.lemma("L-COV")

    def mk(ctx):
        m = objx.sym_array((N, N), "m")
        M = ift.MatrixProductOperator(dt, m)
        D = ift.DiagonalOperator(ift.Field(dt, objx.sym_array((N,), "d", positive=True)), sampling_dtype=float)
        E = ift.DiagonalOperator(ift.Field(dt, objx.sym_array((N,), "e", positive=True)), sampling_dtype=float)
        return M, D, E

    def run_sw(ctx):
        noise = objx.Noise()
        with objx.patched(noise):
            M, D, E = mk(ctx)
            SW = SandwichOperator.make(M, D)
            s = SW.draw_sample()
            _check_sample(ctx, noise, list(s.asnumpy().reshape(-1)), _dense(SW, dt, N), "SandwichOperator(M, D)")
            try:
                SW.draw_sample(from_inverse=True)
                ctx.prove(F_, "SandwichOperator with a non-invertible bun refuses to draw from the inverse")
            except NotImplementedError:
                ctx.prove(T_, "SandwichOperator with a non-invertible bun refuses to draw from the inverse")
    chk.explore(run_sw, tag="sandwich/matrix-bun")

    def run_sw_inv(ctx):
        noise = objx.Noise()
        with objx.patched(noise):
            M, D, E = mk(ctx)
            SW = SandwichOperator.make(E, D)         # invertible bun
            for inv in (False, True):
                noise.src.clear()
                s = SW.draw_sample(from_inverse=inv)
                _check_sample(ctx, noise, list(s.asnumpy().reshape(-1)), _dense(SW, dt, N),
                              f"SandwichOperator(E, D) {'from_inverse' if inv else 'forward'}", inverse=inv)
    chk.explore(run_sw_inv, tag="sandwich/invertible-bun")

    def run_sum(ctx):
        noise = objx.Noise()
        with objx.patched(noise):
            M, D, E = mk(ctx)
            SW = SandwichOperator.make(M, D)
            S = SW + E
            s = S.draw_sample()
            _check_sample(ctx, noise, list(s.asnumpy().reshape(-1)), _dense(S, dt, N), "SumOperator (SW + E)")
            try:
                S.draw_sample(from_inverse=True)
                ctx.prove(F_, "SumOperator refuses to draw from its inverse")
            except NotImplementedError:
                ctx.prove(T_, "SumOperator refuses to draw from its inverse")
    chk.explore(run_sum, tag="sum/plus")

    def run_diff(ctx):
        noise = objx.Noise()
        with objx.patched(noise):
            M, D, E = mk(ctx)
            SW = SandwichOperator.make(M, D)
            S = SW - SandwichOperator.make(M, E)
            try:
                s = S.draw_sample()
            except (NotImplementedError, ValueError):
                ctx.prove(T_, "SumOperator with a negated term: refuses, or samples with the covariance of the difference")
                ctx.cover("difference refused")
                return
            _check_sample(ctx, noise, list(s.asnumpy().reshape(-1)), _dense(S, dt, N),
                          "SumOperator with a negated term: refuses, or samples with the covariance of the difference")
    chk.explore(run_diff, tag="sum/minus")


def sec_block_adapter(chk):
    ift, dom, dt = _setup()
    from nifty.cl.operators.block_diagonal_operator import BlockDiagonalOperator
    from nifty.cl.operators.operator_adapter import OperatorAdapter
    chk.under_contract(BlockDiagonalOperator.draw_sample)
    chk.under_contract(OperatorAdapter.draw_sample)

    def run_block(ctx):
        noise = objx.Noise()
        with objx.patched(noise):
            mdom = ift.MultiDomain.make({"a": dom, "b": dom})
            d = objx.sym_array((N,), "d", positive=True)
            D = ift.DiagonalOperator(ift.Field(dt, d), sampling_dtype=float)
            B = BlockDiagonalOperator(mdom, {"a": D, "b": None}, sampling_dtype={"b": float}) \
                if "sampling_dtype" in BlockDiagonalOperator.__init__.__code__.co_varnames else \
                BlockDiagonalOperator(mdom, {"a": D, "b": ift.ScalingOperator(dt, 1., sampling_dtype=float)})
            for inv in (False, True):
                noise.src.clear()
                s = B.draw_sample(from_inverse=inv)
                vec = list(s["a"].asnumpy().reshape(-1)) + list(s["b"].asnumpy().reshape(-1))
                target = [[0.] * (2 * N) for _ in range(2 * N)]
                for i in range(N):
                    target[i][i] = d[i]
                    target[N + i][N + i] = 1.
                _check_sample(ctx, noise, vec, target, f"BlockDiagonalOperator {'from_inverse' if inv else 'forward'}", inverse=inv)
    chk.explore(run_block, tag="block")

    def run_adapter(ctx):
        """OperatorAdapter.draw_sample for a generic wrapped operator (contract stub): the inverse bit flips from_inverse"""
        calls = []

        class Op(ift.LinearOperator):
            def __init__(self):
                self._domain = self._target = dt
                self._capability = 15

            def apply(self, x, mode):
                return x

            def draw_sample(self, from_inverse=False, device_id=-1):
                calls.append(from_inverse)
                return "sample"
        for trafo in (1, 2, 3):
            for inv in (False, True):
                calls.clear()
                ad = OperatorAdapter(Op(), trafo)
                ad.draw_sample(from_inverse=inv)
                want = inv ^ bool(trafo & 2)
                ctx.prove(_b(calls == [want]), "OperatorAdapter.draw_sample: inverse views flip from_inverse, adjoint views do not")
    chk.explore(run_adapter, tag="adapter")


def sec_sampling_enabler(chk):
    ift, dom, dt = _setup()
    import nifty.cl.operators.sampling_enabler as se
    chk.under_contract(se.SamplingEnabler.special_draw_sample)
    chk.assume("A-CGEXACT: the conjugate gradient inside SamplingEnabler is replaced by the exact solution of (L+P) x = b "
               "(C14 proves the CG contract; convergence is not part of it)")
    chk.lemma("L-COV")

    class ExactCG:
        def __init__(self, ic):
            pass

        def __call__(self, energy, preconditioner=None):
            A, b = energy._A, energy._b
            M = _dense(A, dt, N)
            bb = list(b.asnumpy().reshape(-1))
            det = _R(M[0][0]) * _R(M[1][1]) - _R(M[0][1]) * _R(M[1][0])
            x0 = (_R(bb[0]) * _R(M[1][1]) - _R(M[0][1]) * _R(bb[1])) / det
            x1 = (_R(M[0][0]) * _R(bb[1]) - _R(M[1][0]) * _R(bb[0])) / det
            arr = np.empty(N, dtype=object)
            arr[0], arr[1] = x0, x1
            return energy.at(ift.Field(dt, arr)), 0

    for start_from_zero in (False, True):
        def run(ctx, start_from_zero=start_from_zero):
            noise = objx.Noise()
            old = se.ConjugateGradient
            se.ConjugateGradient = ExactCG
            try:
                with objx.patched(noise):
                    m = objx.sym_array((N, N), "m")
                    M = ift.MatrixProductOperator(dt, m)
                    D = ift.DiagonalOperator(ift.Field(dt, objx.sym_array((N,), "d", positive=True)), sampling_dtype=float)
                    E = ift.DiagonalOperator(ift.Field(dt, objx.sym_array((N,), "e", positive=True)), sampling_dtype=float)
                    L = ift.SandwichOperator.make(M, D)
                    op = se.SamplingEnabler(L, E, "IC", start_from_zero=start_from_zero)
                    b, x = op.special_draw_sample(from_inverse=True)
                    tot = _dense(L + E, dt, N)
                    _check_sample(ctx, noise, list(b.asnumpy().reshape(-1)), tot,
                                  "SamplingEnabler: the right-hand side b has covariance L + P")
                    # x = (L+P)^-1 b exactly  =>  (L+P) x == b, hence Cov(x) = (L+P)^-1 Cov(b) (L+P)^-1 = (L+P)^-1
                    xv = list(x.asnumpy().reshape(-1))
                    bv = list(b.asnumpy().reshape(-1))
                    eqs = []
                    for i in range(N):
                        s = _R(0.)
                        for j in range(N):
                            s = s + _R(tot[i][j]) * _R(xv[j])
                        eqs.append(s == _R(bv[i]))
                    det = _R(tot[0][0]) * _R(tot[1][1]) - _R(tot[0][1]) * _R(tot[1][0])
                    ctx.assume(det != 0)
                    ctx.prove(sand(*eqs), "SamplingEnabler: the returned sample solves (L + P) x = b, so its covariance is (L + P)^-1")
            finally:
                se.ConjugateGradient = old
        chk.explore(run, tag=f"start_from_zero={start_from_zero}")

    def run_forward(ctx):
        noise = objx.Noise()
        with objx.patched(noise):
            D = ift.DiagonalOperator(ift.Field(dt, objx.sym_array((N,), "d", positive=True)), sampling_dtype=float)
            E = ift.DiagonalOperator(ift.Field(dt, objx.sym_array((N,), "e", positive=True)), sampling_dtype=float)
            op = se.SamplingEnabler(D, E, "IC")
            s = op.draw_sample(from_inverse=False)
            _check_sample(ctx, noise, list(s.asnumpy().reshape(-1)), _dense(D + E, dt, N), "SamplingEnabler forward draw")
    chk.explore(run_forward, tag="forward")


def sec_complex_native(chk):
    """bounded, native: Random.normal for complex dtypes draws independent real and imaginary parts with the requested std
    (NIFTy's convention: the density is exp(-1/2 x^H C^-1 x), i.e. each part has covariance C)"""
    import nifty.cl.random as rnd
    fails, n = [], 0
    for std in (1.0, 0.5, 3.0):
        n += 1
        with rnd.Context(5):
            x = rnd.Random.normal(np.complex128, (6,), mean=0., std=std)
        ref = np.random.default_rng(np.random.SeedSequence(5))
        re = ref.normal(0., std, (6,))
        im = ref.normal(0., std, (6,))
        if not (np.array_equal(x.real, re) and np.array_equal(x.imag, im)):
            fails.append(dict(case=f"std={std}", detail="complex normal is not (normal(std), normal(std)) for real and imaginary part"))
    chk.bounded("Random.normal(complex): real and imaginary parts are independent normal draws with the requested std",
                bound="3 std values, 6 pixels", cases=n, nontrivial=n, failures=fails, samples=[dict(std=0.5)], kind="B-runtime")


def _native_cov(ob):
    """native replay (floats): read R off the real draw_sample with basis-vector noise and compare R R^T with the dense operator"""
    import nifty.cl as ift
    import nifty.cl.random as rnd
    dom = ift.UnstructuredDomain(N)
    dt = ift.DomainTuple.make(dom)
    M = ift.MatrixProductOperator(dt, np.array([[1., 2.], [0.5, -1.]]))
    D = ift.DiagonalOperator(ift.makeField(dom, np.array([2., 3.])), sampling_dtype=float)
    E = ift.DiagonalOperator(ift.makeField(dom, np.array([.5, .25])), sampling_dtype=float)
    cases = {"SW(M,D) - SW(M,E)": ift.SandwichOperator.make(M, D) - ift.SandwichOperator.make(M, E),
             "SW(M,D) + E": ift.SandwichOperator.make(M, D) + E, "D": D}
    old = rnd.Random.normal
    hits = []
    try:
        for name, op in cases.items():
            state = dict(k=-1, count=0)

            def normal(dtype, shape, mean=0., std=1.):
                n = int(np.prod(shape, dtype=int))
                a = np.zeros(n)
                if 0 <= state["k"] - state["count"] < n:
                    a[state["k"] - state["count"]] = 1.
                state["count"] += n
                return a.reshape(shape) * std + mean
            rnd.Random.normal = staticmethod(normal)
            try:
                state.update(k=-1, count=0)
                op.draw_sample()
                K = state["count"]
                cols = []
                for k in range(K):
                    state.update(k=k, count=0)
                    cols.append(op.draw_sample().asnumpy().reshape(-1))
            except (NotImplementedError, ValueError) as e:
                continue
            R = np.array(cols).T
            dense = np.array(_dense(op, dt, N), dtype=float)
            if not np.allclose(R @ R.T, dense, rtol=1e-12, atol=1e-12):
                hits.append(dict(operator=name, sample_covariance=(R @ R.T).tolist(), operator_matrix=dense.tolist()))
    finally:
        rnd.Random.normal = old
    return dict(reproduced=bool(hits), how="real draw_sample with basis-vector noise (floats): R read off column by column",
                failing_inputs=hits[:2])


REPLAY = {"R R^T": _native_cov}

SECTIONS = [sec_scaling, sec_diagonal, sec_sandwich_sum, sec_block_adapter, sec_sampling_enabler, sec_complex_native]
