"""C02 Every library linear operator is adjoint/inverse consistent and correct.

Contract of LinearOperator.apply(x, mode), checked per exported operator class and admissible construction:
    linear:      A x is a linear form in the input entries (coefficient matrix read off, residual zero)
    adjoint:     Re <s, A x> == Re <A^H s, x>  as an identity in all entries of x and s; for complex-linear operators also without 'Re'
    inverse:     A^-1 (A x) == x and A^-H (A^H s) == s wherever the inverse modes are advertised
    typing:      A x lives on the declared target (the identical DomainTuple / MultiDomain object), A^H s on the domain
    frame:       applying the operator does not modify its input
    definition:  A x == the documented definition, written in this file as an independent index-level formula
Engine O: the real operator classes run on fields of sympy symbols (real symbols, or a + i b for complex inputs), so each identity
holds for all values; the constructions (domains, sub-space positions, parameters) are enumerated.  Operators whose substrate cannot
take object arrays (SHT, NUFFT/Gridder, LOS, SciPy sparse interpolation, JAX) are checked natively in float64 on generated inputs
(bounded), C35 adds their documented definitions.  utilities.special_add_at is under contract through np.bincount's defining sum.
"""
import itertools

import numpy as np
import sympy as sp

from vf import objx
from vf.objx import SX, exprs
from vf.ofield import flat, sym_field

META = dict(
    title="Every library linear operator is adjoint/inverse consistent and correct",
    level="other",
    design_ref="DESIGN.md section 4, C02",
    technique="contract of LinearOperator.apply (linearity, adjointness, advertised inverses, typing of the result, input frame, documented "
              "definition as an independent index-level formula) discharged per exported operator class on fields of sympy symbols "
              "(Engine O) for enumerated constructions; operators with a non-Python substrate checked natively (bounded)",
    text="For every exported linear operator class and the enumerated constructions (single spaces and products, every sub-space position, "
         "real and complex inputs where the class distinguishes them): the action is linear, the adjoint satisfies <s, A x> == <A^H s, x> "
         "(real part for the real-linear operators Realizer, Imaginizer, ConjugationOperator), advertised inverses invert, results live "
         "on the declared target and domain objects, inputs are not modified, and the action equals the documented definition. "
         "SHT, NUFFT, LOS, sparse interpolation and JAX operators: adjointness, linearity and typing natively on generated inputs.",
    note="Universal in all field values and symbolic operator parameters; bounded in the catalogue of constructions (about 90). Abstract "
         "bases (LinearOperator, EndomorphicOperator) and wrappers verified elsewhere (InversionEnabler C14, SamplingEnabler C13, "
         "harmonic operators C09, distributors C10) are listed as such. np.bincount inside special_add_at is re-bound to its defining sum.",
    explanation="level 'other': symbolic identities on the real classes for enumerated constructions, native bounded stand-ins for substrate operators",
)


def _sym_on(ift, dom, name, cplx=False):
    """symbolic Field/MultiField on dom; returns (field, flat list of sympy entries)"""
    if isinstance(dom, ift.MultiDomain):
        fl, es = {}, []
        for k in sorted(dom.keys()):
            fl[k], e = _sym_on(ift, dom[k], f"{name}{k}", cplx)
            es += e
        return ift.MultiField.from_dict(fl, domain=dom), es
    dt = ift.DomainTuple.make(dom)
    n = int(np.prod(dt.shape, dtype=int))
    arr = np.empty(n, dtype=object)
    es = []
    for i in range(n):
        e = sp.Symbol(f"{name}{i}", real=True)
        if cplx:
            e = e + sp.I * sp.Symbol(f"{name}{i}i", real=True)
        es.append(e)
        arr[i] = SX(e)
    return ift.Field(dt, arr.reshape(dt.shape)), es


def _vdot(a, b):
    return sum(sp.conjugate(x) * y for x, y in zip(a, b))


def _zero(e):
    e = sp.expand(sp.sympify(e))
    if e == 0:
        return True
    return sp.simplify(e) == 0


def check(chk, label, op, ift, spec=None, cplx=False, complex_linear=True, group="catalogue"):
    """the LinearOperator.apply contract for one constructed operator"""
    lab = f"{group}: {label}{' [complex input]' if cplx else ''}"
    try:
        if type(op).__module__.startswith("nifty."):
            chk.under_contract(type(op).apply)
    except Exception:  # noqa: BLE001
        pass
    x, xs = _sym_on(ift, op.domain, "x", cplx)
    before = list(xs)
    try:
        y = op.times(x)
    except Exception as e:  # noqa: BLE001
        chk.obligation(f"{lab}: times runs on an admissible input", "refuted", backend="native", detail=f"{type(e).__name__}: {e}"[:300])
        return
    ok = y.domain is op.target
    chk.obligation(f"{lab}: times returns a field on the declared target object", "discharged" if ok else "refuted", backend="identity")
    ys = [sp.expand(e) for e in flat(y)]
    atoms = sorted({s for e in xs for s in sp.sympify(e).free_symbols}, key=str)
    ok = all(sp.expand(sp.diff(e, a, b)) == 0 for e in ys for a in atoms for b in atoms if str(a) <= str(b)) and all(_zero(e.subs({a: 0 for a in atoms})) for e in ys)
    chk.obligation(f"{lab}: times is linear in the input entries (no constant term, no products)", "discharged" if ok else "refuted", backend="sympy")
    ok = [sp.sympify(a) == sp.sympify(b) for a, b in zip(flat(x), before)]
    chk.obligation(f"{lab}: times does not modify its input", "discharged" if all(ok) else "refuted", backend="identity")
    if spec is not None:
        want = [sp.expand(sp.sympify(e)) for e in spec(xs)]
        good = len(want) == len(ys) and all(_zero(a - b) for a, b in zip(ys, want))
        chk.obligation(f"{lab}: times == the documented definition", "discharged" if good else "refuted", backend="sympy",
                       detail="" if good else f"{ys[:3]} ... vs {want[:3]} ... ({len(ys)}/{len(want)} entries)")
    if op.capability & op.ADJOINT_TIMES:
        s, ss = _sym_on(ift, op.target, "s", cplx)
        z = op.adjoint_times(s)
        ok = z.domain is op.domain
        chk.obligation(f"{lab}: adjoint_times returns a field on the declared domain object", "discharged" if ok else "refuted", backend="identity")
        zs = flat(z)
        lhs, rhs = sp.expand(_vdot(ss, ys)), sp.expand(_vdot(zs, xs))
        if complex_linear:
            good = _zero(lhs - rhs)
            chk.obligation(f"{lab}: <s, A x> == <A^H s, x>", "discharged" if good else "refuted", backend="sympy", detail="" if good else str(sp.simplify(lhs - rhs))[:300])
        else:
            good = _zero(sp.re(lhs) - sp.re(rhs))
            chk.obligation(f"{lab}: Re <s, A x> == Re <A^H s, x> (real-linear operator)", "discharged" if good else "refuted", backend="sympy",
                           detail="" if good else str(sp.simplify(sp.re(lhs - rhs)))[:300])
    else:
        chk.note(f"{lab}: no adjoint advertised")
    if op.capability & op.INVERSE_TIMES:
        back = flat(op.inverse_times(y))
        good = all(_zero(a - b) for a, b in zip(back, xs))
        chk.obligation(f"{lab}: inverse_times(times(x)) == x", "discharged" if good else "refuted", backend="sympy")
    if (op.capability & op.ADJOINT_INVERSE_TIMES) and (op.capability & op.ADJOINT_TIMES):
        s, ss = _sym_on(ift, op.target, "s", cplx)
        back = flat(op.adjoint_inverse_times(op.adjoint_times(s)))
        good = all(_zero(a - b) for a, b in zip(back, ss))
        chk.obligation(f"{lab}: adjoint_inverse_times(adjoint_times(s)) == s", "discharged" if good else "refuted", backend="sympy")
    for mode in ("inverse_times", "adjoint_inverse_times"):
        bit = op.INVERSE_TIMES if mode == "inverse_times" else op.ADJOINT_INVERSE_TIMES
        if not (op.capability & bit):
            try:
                getattr(op, mode)(y if mode == "inverse_times" else x)
                ok = False
            except Exception:  # noqa: BLE001
                ok = True
            chk.obligation(f"{lab}: the unadvertised mode {mode} is refused", "discharged" if ok else "refuted", backend="native")
    return ys


def _arr(xs, shape):
    return np.array(xs, dtype=object).reshape(shape)


def sec_structure(chk):
    """operators that move, select, pad, sum or reshape entries"""
    import nifty.cl as ift
    from nifty.cl import utilities
    chk.under_contract(utilities._special_add_at, note="np.bincount re-bound to its defining sum for object arrays")
    rg = ift.RGSpace((2, 3), distances=(0.5, 2.))
    r1 = ift.RGSpace(4, distances=0.25)
    un = ift.UnstructuredDomain(2)
    gl = ift.GLSpace(3, 2)
    with objx.patched(), objx.patched_bincount():
        # ---- ContractionOperator: sum over the contracted spaces, weighted with volume**power
        for doms, spaces, power in (((rg,), None, 0), ((rg, un), 0, 0), ((un, rg), 1, 1), ((r1, gl), (0, 1), 1), ((r1, gl), 1, 1), ((rg, r1), 0, -1), ((un, r1, un), (0, 2), 0)):
            dt = ift.DomainTuple.make(doms)
            op = ift.ContractionOperator(dt, spaces, power)
            sp_idx = tuple(range(len(dt))) if spaces is None else ((spaces,) if isinstance(spaces, int) else tuple(spaces))
            axes = tuple(a for s in sp_idx for a in dt.axes[s])

            def spec(xs, dt=dt, sp_idx=sp_idx, axes=axes, power=power):
                A = _arr(xs, dt.shape)
                for s in sp_idx:
                    if power != 0:
                        d = dt[s]
                        vol = np.full(d.shape, objx._float_literal(float(d.scalar_dvol)), dtype=object) if d.scalar_dvol is not None else \
                            np.array([objx._float_literal(float(v)) for v in np.asarray(d.dvol).ravel()], dtype=object).reshape(d.shape)
                        shp = [1] * len(dt.shape)
                        for a, n in zip(dt.axes[s], d.shape):
                            shp[a] = n
                        A = A * (vol.reshape(shp) ** power)
                out = A.sum(axis=axes)
                return list(np.asarray(out, dtype=object).ravel())
            check(chk, f"ContractionOperator({[str(d.shape) for d in doms]}, spaces={spaces}, power={power})", op, ift, spec, group="structure")
        # ---- FieldZeroPadder
        for doms, space, new_shape, central in (((r1,), 0, (6,), False), ((r1,), 0, (7,), True), ((rg,), 0, (3, 5), False), ((rg,), 0, (4, 5), True), ((un, r1), 1, (5,), False), ((r1, un), 0, (6,), True)):
            dt = ift.DomainTuple.make(doms)
            op = ift.FieldZeroPadder(dt, new_shape, space, central)

            def spec(xs, dt=dt, space=space, new_shape=new_shape, central=central, op=op):
                A = _arr(xs, dt.shape)
                out = np.zeros(op.target.shape, dtype=object)
                ax = dt.axes[space]
                if not central:
                    sl = [slice(None)] * len(dt.shape)
                    for a in ax:
                        sl[a] = slice(0, dt.shape[a])
                    out[tuple(sl)] = A
                    return list(out.ravel())
                # central (documented, incl. the note on even lengths): entries 0..n//2 stay in front, the last n//2 entries go to the end;
                # for an even axis the middle entry is therefore present on both sides
                out_shape = op.target.shape
                for src in np.ndindex(*dt.shape):
                    dests = [[]]
                    for a, i in enumerate(src):
                        n, m = dt.shape[a], out_shape[a]
                        if a in ax and m != n:
                            h = n // 2
                            pos = ([i] if i <= h else []) + ([m - (n - i)] if i >= n - h else [])
                        else:
                            pos = [i]
                        dests = [dd + [q] for dd in dests for q in pos]
                    for dd in dests:
                        out[tuple(dd)] = A[src]
                return list(out.ravel())
            check(chk, f"FieldZeroPadder({[str(d.shape) for d in doms]}, {new_shape}, space={space}, central={central})", op, ift, spec, group="structure")
        # ---- SliceOperator, SplitOperator
        for doms, new_shape, center in (((rg,), ((1, 2),), False), ((rg,), ((2, 2),), True), ((rg,), ((2, 2),), False), ((r1, un), ((2,), None), True), ((r1, un), ((2,), None), False),
                                        ((r1,), ((3,),), False), ((ift.RGSpace((4, 5)),), ((2, 3),), True)):
            dt = ift.DomainTuple.make(doms)
            try:
                op = ift.SliceOperator(dt, new_shape, center=center)
            except Exception as e:  # noqa: BLE001
                chk.obligation(f"structure: SliceOperator({[str(d.shape) for d in doms]}, {new_shape}, center={center}): the documented construction is accepted", "refuted",
                               backend="native", detail=f"{type(e).__name__}: {e}"[:200], model=dict(new_shape=str(new_shape), center=center))
                continue
            chk.obligation(f"structure: SliceOperator({[str(d.shape) for d in doms]}, {new_shape}, center={center}): the documented construction is accepted", "discharged", backend="native")

            def spec(xs, dt=dt, op=op, center=center):
                A = _arr(xs, dt.shape)
                sl = []
                for n, m in zip(dt.shape, op.target.shape):
                    lo = (n - m) // 2 if center else 0
                    sl.append(slice(lo, lo + m))
                return list(A[tuple(sl)].ravel())
            check(chk, f"SliceOperator({[str(d.shape) for d in doms]}, {new_shape}, center={center})", op, ift, spec, group="structure")
        dt = ift.DomainTuple.make((r1, un))
        slices = {"lo": (slice(0, 2), None), "hi": (slice(1, 4), slice(0, 1))}
        op = ift.SplitOperator(dt, slices)

        def spec_split(xs, dt=dt, slices=slices):
            A = _arr(xs, dt.shape)
            out = []
            for k in sorted(slices):
                sl = tuple(slice(None) if s is None else s for s in slices[k])
                out += list(A[sl].ravel())
            return out
        check(chk, "SplitOperator((4,)x(2,), {'lo': rows 0-1, 'hi': rows 1-3 col 0}) with intersecting slices", op, ift, spec_split, group="structure")
        # ---- TransposeOperator, DomainChangerAndReshaper, GeometryRemover, SqueezeOperator
        dt = ift.DomainTuple.make((r1, un, rg))
        for perm in ((2, 0, 1), (1, 0, 2), (0, 1, 2)):
            op = ift.TransposeOperator(dt, perm)

            def spec(xs, dt=dt, perm=perm):
                A = _arr(xs, dt.shape)
                axes = [a for s in perm for a in dt.axes[s]]
                return list(A.transpose(axes).ravel())
            check(chk, f"TransposeOperator((4,)x(2,)x(2,3), {perm})", op, ift, spec, group="structure")
        op = ift.DomainChangerAndReshaper(ift.DomainTuple.make((rg, un)), ift.DomainTuple.make(ift.UnstructuredDomain((3, 4))))
        check(chk, "DomainChangerAndReshaper((2,3)x(2,) -> (3,4))", op, ift, lambda xs: list(xs), group="structure")
        for doms, space in (((rg, r1), None), ((rg, r1), 1), ((gl,), None)):
            op = ift.GeometryRemover(ift.DomainTuple.make(doms), space)
            check(chk, f"GeometryRemover({[str(d.shape) for d in doms]}, space={space})", op, ift, lambda xs: list(xs), group="structure")
        dsq = ift.DomainTuple.make((ift.UnstructuredDomain(1), r1, ift.RGSpace((1, 2))))
        for aggressive in (False, True):
            op = ift.SqueezeOperator(dsq, aggressive=aggressive)
            check(chk, f"SqueezeOperator((1,)x(4,)x(1,2), aggressive={aggressive})", op, ift, lambda xs: list(xs), group="structure")
        # ---- inserters / extractors
        tgt = ift.DomainTuple.make((un, r1, rg))
        op = ift.DomainTupleFieldInserter(tgt, 1, (2,))

        def spec_ins(xs, tgt=tgt, op=op):
            A = _arr(xs, op.domain.shape)
            out = np.zeros(tgt.shape, dtype=object)
            out[:, 2, :, :] = A
            return list(out.ravel())
        check(chk, "DomainTupleFieldInserter((2,)x(4,)x(2,3), space=1, index=(2,))", op, ift, spec_ins, group="structure")
        op = ift.ValueInserter(ift.DomainTuple.make(rg), (1, 2))

        def spec_val(xs):
            out = np.zeros((2, 3), dtype=object)
            out[1, 2] = xs[0]
            return list(out.ravel())
        check(chk, "ValueInserter((2,3), index=(1,2))", op, ift, spec_val, group="structure")
        dt = ift.DomainTuple.make((un, rg))
        op = ift.ExtractAtIndices(dt, ((0, 1, 1, 0), (2, 0, 0, 2)), space=1)

        def spec_ext(xs, dt=dt):
            A = _arr(xs, dt.shape)
            return list(A[:, [0, 1, 1, 0], [2, 0, 0, 2]].ravel())
        check(chk, "ExtractAtIndices((2,)x(2,3), indices with repetitions, space=1)", op, ift, spec_ext, group="structure")
        flags = ift.makeField(ift.DomainTuple.make((un, r1)), np.array([[0, 1, 0, 0], [1, 0, 0, 1]]))
        op = ift.MaskOperator(flags)
        check(chk, "MaskOperator(flags on (2,)x(4,))", op, ift, lambda xs: [xs[i] for i in (0, 2, 3, 5, 6)], group="structure")
        # ---- FFTShiftOperator (wraps numpy fftshift)
        for doms, spaces in (((r1,), None), ((rg,), None), ((un, rg), (1,)), ((ift.RGSpace(5), r1), (0,))):
            dt = ift.DomainTuple.make(doms)
            op = ift.FFTShiftOperator(dt, spaces)
            sp_idx = [i for i, d in enumerate(dt) if isinstance(d, ift.RGSpace)] if spaces is None else list(spaces)
            axes = tuple(a for s in sp_idx for a in dt.axes[s])
            check(chk, f"FFTShiftOperator({[str(d.shape) for d in doms]}, spaces={spaces})", op, ift,
                  lambda xs, dt=dt, axes=axes: list(np.fft.fftshift(_arr(xs, dt.shape), axes=axes).ravel()), group="structure")
        # ---- RegriddingOperator: documented as linear interpolation to a coarser grid; its adjoint / typing / linearity here, the weights in C35
        for doms, new_shape, space in (((r1,), (2,), 0), ((rg,), (2, 2), 0), ((un, r1), (3,), 1)):
            op = ift.RegriddingOperator(ift.DomainTuple.make(doms), new_shape, space)
            check(chk, f"RegriddingOperator({[str(d.shape) for d in doms]}, {new_shape}, space={space})", op, ift, None, group="structure")


def sec_multi(chk):
    """operators between fields and multi-fields"""
    import nifty.cl as ift
    rg = ift.RGSpace((2, 2), distances=(0.5, 2.))
    un = ift.UnstructuredDomain(3)
    md = ift.MultiDomain.make({"a": rg, "b": un, "c": ift.DomainTuple.make((un, rg))})
    with objx.patched():
        op = ift.FieldAdapter(rg, "k")
        check(chk, "FieldAdapter(target (2,2), name 'k')", op, ift, lambda xs: list(xs), group="multi")
        check(chk, "FieldAdapter.adjoint (field -> multi-field)", op.adjoint, ift, lambda xs: list(xs), group="multi")
        op = ift.PrependKey(md, "pre_")
        check(chk, "PrependKey(three keys)", op, ift, lambda xs: list(xs), group="multi")
        ok = set(op.target.keys()) == {"pre_a", "pre_b", "pre_c"}
        chk.obligation("multi: PrependKey: every key is prefixed", "discharged" if ok else "refuted", backend="identity")
        sub = ift.MultiDomain.make({"a": rg, "c": md["c"]})
        op = ift.PartialExtractor(md, sub)
        n_a, n_b = 4, 3
        check(chk, "PartialExtractor(keys a,b,c -> a,c)", op, ift, lambda xs: list(xs[:n_a]) + list(xs[n_a + n_b:]), group="multi")
        op = ift.Multifield2Vector(md)
        check(chk, "Multifield2Vector(three keys)", op, ift, lambda xs: list(xs), group="multi")
        ops = {"a": ift.ScalingOperator(ift.DomainTuple.make(rg), 2.), "b": ift.DiagonalOperator(ift.Field(ift.DomainTuple.make(un), objx.sx_array((3,), "w", real=True)))}
        md2 = ift.MultiDomain.make({"a": rg, "b": un})
        op = ift.BlockDiagonalOperator(md2, ops)
        w = exprs(ops["b"]._ldiag.asnumpy()) if hasattr(ops["b"], "_ldiag") else None
        check(chk, "BlockDiagonalOperator({a: 2, b: diag(w)})", op, ift, (lambda xs: [2 * e for e in xs[:4]] + [w[i] * xs[4 + i] for i in range(3)]) if w else None, group="multi")
        op = ift.NullOperator(md2, ift.DomainTuple.make(un))
        check(chk, "NullOperator(multi-domain -> (3,))", op, ift, lambda xs: [0, 0, 0], group="multi")


def sec_algebra(chk):
    """scaling, diagonal, matrix, sandwich, outer product, vdot, complex-structure operators, einsum"""
    import nifty.cl as ift
    rg = ift.RGSpace(3, distances=0.5)
    dt = ift.DomainTuple.make(rg)
    un = ift.UnstructuredDomain(2)
    with objx.patched(complex_objects=True):
        f = sp.Symbol("f", real=True) + sp.I * sp.Symbol("g", real=True)
        # complex scaling factor and complex diagonal: complex-linear, adjoint conjugates
        # (float factors for ScalingOperator: a symbolic factor is covered by C01)
        for fac, fs in ((2.5, sp.Rational(5, 2)), (1.5 - 2j, sp.Rational(3, 2) - 2 * sp.I), (1j, sp.I)):
            op = ift.ScalingOperator(dt, fac)
            check(chk, f"ScalingOperator({fac})", op, ift, lambda xs, fs=fs: [fs * e for e in xs], cplx=True, group="algebra")
        dd = np.empty(3, dtype=object)
        dsy = []
        for i in range(3):
            e = sp.Symbol(f"d{i}", real=True) + sp.I * sp.Symbol(f"e{i}", real=True)
            dd[i] = SX(e)
            dsy.append(e)
        op = ift.DiagonalOperator(ift.Field(dt, dd))
        check(chk, "DiagonalOperator(complex symbolic diagonal)", op, ift, lambda xs: [dsy[i] * xs[i] for i in range(3)], cplx=True, group="algebra")
        prod = ift.DomainTuple.make((un, rg))
        op = ift.DiagonalOperator(ift.Field(dt, dd), prod, 1)
        check(chk, "DiagonalOperator(diagonal on sub-space 1 of (2,)x(3,))", op, ift, lambda xs: [dsy[i % 3] * xs[i] for i in range(6)], cplx=True, group="algebra")
        mm = np.empty((3, 3), dtype=object)
        ms = sp.zeros(3, 3)
        for i in range(3):
            for j in range(3):
                ms[i, j] = sp.Symbol(f"m{i}{j}", real=True) + sp.I * sp.Symbol(f"n{i}{j}", real=True)
                mm[i, j] = SX(ms[i, j])
        M = ift.MatrixProductOperator(dt, mm)
        check(chk, "MatrixProductOperator(complex symbolic 3x3)", M, ift, lambda xs: list(ms * sp.Matrix(xs)), cplx=True, group="algebra")
        # ---- SandwichOperator.make: documented as bun^H cheese bun
        cheese = ift.DiagonalOperator(ift.Field(dt, objx.sx_array((3,), "c", real=True)))
        cs = exprs(cheese._ldiag.asnumpy())
        for bname, bun, bmat in (("ScalingOperator(1.5-2j)", ift.ScalingOperator(dt, 1.5 - 2j), (sp.Rational(3, 2) - 2 * sp.I) * sp.eye(3)),
                                 ("ScalingOperator(2j)", ift.ScalingOperator(dt, 2j), 2 * sp.I * sp.eye(3)),
                                 ("ScalingOperator(-3.)", ift.ScalingOperator(dt, -3.), -3 * sp.eye(3)),
                                 ("complex DiagonalOperator", ift.DiagonalOperator(ift.Field(dt, dd)), sp.diag(*dsy)),
                                 ("complex MatrixProductOperator", M, ms)):
            try:
                op = ift.SandwichOperator.make(bun, cheese)
            except Exception as e:  # noqa: BLE001
                chk.obligation(f"algebra: SandwichOperator.make({bname}, real diagonal cheese) can be built", "refuted", backend="native", detail=f"{type(e).__name__}: {e}"[:200])
                continue
            S = bmat.H * sp.diag(*cs) * bmat
            check(chk, f"SandwichOperator.make({bname}, real diagonal cheese) == bun^H cheese bun", op, ift, lambda xs, S=S: list(S * sp.Matrix(xs)), cplx=True, group="algebra")
        op = ift.SandwichOperator.make(M)
        check(chk, "SandwichOperator.make(M) == M^H M", op, ift, lambda xs: list(ms.H * ms * sp.Matrix(xs)), cplx=True, group="algebra")
        # ---- outer product and vdot
        fld, fsy = sym_field(ift, ift.DomainTuple.make(un), "q")
        op = ift.OuterProduct(dt, fld)
        check(chk, "OuterProduct(domain (3,), field on (2,))", op, ift, lambda xs: [fsy[i] * xs[j] for i in range(2) for j in range(3)], cplx=True, group="algebra")
        vf, vs = _sym_on(ift, dt, "v", True)
        op = ift.VdotOperator(vf)
        check(chk, "VdotOperator(complex field): x -> <v, x>", op, ift, lambda xs: [sum(sp.conjugate(a) * b for a, b in zip(vs, xs))], cplx=True, group="algebra")
        # ---- the real-linear operators
        op = ift.Realizer(dt)
        check(chk, "Realizer", op, ift, lambda xs: [sp.re(e) for e in xs], cplx=True, complex_linear=False, group="algebra")
        # Imaginizer insists on a complex floating dtype (object arrays are refused): checked natively in sec_native
        op = ift.ConjugationOperator(dt)
        check(chk, "ConjugationOperator", op, ift, lambda xs: [sp.conjugate(e) for e in xs], cplx=True, complex_linear=False, group="algebra")
    with objx.patched():
        # ---- LinearEinsum: contraction of the input with fixed fields
        a_dom, b_dom = ift.UnstructuredDomain(2), ift.UnstructuredDomain(3)
        mf_f, mf_s = sym_field(ift, ift.DomainTuple.make((a_dom, b_dom)), "t", real=True)
        mf = ift.MultiField.from_dict({"T": mf_f})
        try:
            op = ift.LinearEinsum(ift.DomainTuple.make(b_dom), mf, "ij,j->i")
            T = np.array(mf_s, dtype=object).reshape(2, 3)
            check(chk, "LinearEinsum('ij,j->i') with a symbolic tensor", op, ift, lambda xs: [sum(T[i, j] * xs[j] for j in range(3)) for i in range(2)], group="algebra")
        except Exception as e:  # noqa: BLE001
            chk.note(f"LinearEinsum on symbolic fields: {type(e).__name__}: {e}"[:200])


def sec_native(chk):
    """bounded: operators whose substrate cannot take symbols -- adjointness, linearity, typing on generated float inputs"""
    import jax
    jax.config.update("jax_enable_x64", True)
    import nifty.cl as ift
    rng = np.random.default_rng(2 + chk.seed)
    fails, cases = [], 0
    ift.random.push_sseq_from_seed(11)
    try:
        ops = {}
        lm = ift.LMSpace(4)
        ops["SHTOperator(LM(4) -> GL)"] = ift.SHTOperator(lm)
        ops["SHTOperator(LM(3) -> HP(2))"] = ift.SHTOperator(ift.LMSpace(3), ift.HPSpace(2))
        ops["HarmonicTransformOperator(LM(3))"] = ift.HarmonicTransformOperator(ift.LMSpace(3))
        rgp = ift.RGSpace((6, 5), distances=(0.5, 0.25))
        pts = rng.uniform(0.1, 1.1, size=(2, 7))
        ops["LinearInterpolator(RG(6,5), 7 points)"] = ift.LinearInterpolator(rgp, pts)
        ops["LinearInterpolator(RG(8), 5 points)"] = ift.LinearInterpolator(ift.RGSpace(8, distances=0.3), rng.uniform(0., 2., size=(1, 5)))
        starts = rng.uniform(0.2, 0.8, size=(2, 4)) * np.array([[3.], [1.25]])
        ends = rng.uniform(0.2, 0.8, size=(2, 4)) * np.array([[3.], [1.25]])
        ops["LOSResponse(RG(6,5), 4 lines)"] = ift.LOSResponse(rgp, starts, ends)
        try:
            uv = rng.uniform(-0.4, 0.4, size=(9, 2))
            ops["Gridder"] = ift.Gridder(ift.RGSpace((8, 8)), uv, 1e-9)
            ops["Nufft"] = ift.Nufft(ift.RGSpace((8, 8)), uv, 1e-9)
        except Exception as e:  # noqa: BLE001
            chk.note(f"NUFFT operators could not be constructed here: {type(e).__name__}: {e}"[:200])
        try:
            import jax.numpy as jnp
            A = rng.normal(size=(3, 4))
            ops["JaxLinearOperator(x -> A x)"] = ift.JaxLinearOperator(ift.UnstructuredDomain(4), ift.UnstructuredDomain(3), lambda x: jnp.asarray(A) @ x, domain_dtype=float)
        except Exception as e:  # noqa: BLE001
            chk.note(f"JaxLinearOperator could not be constructed: {type(e).__name__}: {e}"[:200])
        ops["Imaginizer"] = ift.Imaginizer(ift.RGSpace(5))
        ops["Realizer"] = ift.Realizer(ift.RGSpace(5))
        cplx_in = {"Gridder", "Nufft", "Imaginizer", "Realizer"}
        for name, op in ops.items():
            for rep in range(3):
                cases += 1
                dty = np.complex128 if name in cplx_in else np.float64
                x1, x2 = ift.from_random(op.domain, dtype=dty), ift.from_random(op.domain, dtype=dty)
                s = ift.from_random(op.target)
                y1, y2 = op(x1), op(x2)
                if y1.domain is not op.target:
                    fails.append(dict(case=f"{name}: times does not return a field on the declared target", detail=""))
                lin = op(x1 * 0.7 - x2 * 1.3)
                if not np.allclose(lin.asnumpy(), 0.7 * y1.asnumpy() - 1.3 * y2.asnumpy(), rtol=1e-10, atol=1e-12):
                    fails.append(dict(case=f"{name}: not linear", detail=""))
                before = x1.asnumpy().copy()
                op(x1)
                if not np.array_equal(before, x1.asnumpy()):
                    fails.append(dict(case=f"{name}: times modified its input", detail=""))
                if op.capability & op.ADJOINT_TIMES:
                    z = op.adjoint_times(s)
                    if z.domain is not op.domain:
                        fails.append(dict(case=f"{name}: adjoint_times does not return a field on the declared domain", detail=""))
                    lhs, rhs = np.real(s.s_vdot(y1)), np.real(z.s_vdot(x1))          # real part: covers the real-linear operators as well
                    tol = 1e-7 if name in ("Gridder", "Nufft") else 1e-11
                    if not np.isclose(lhs, rhs, rtol=tol, atol=tol * (abs(lhs) + 1e-300)):
                        fails.append(dict(case=f"{name}: <s, A x> = {lhs} but <A^H s, x> = {rhs}", detail=""))
    finally:
        ift.random.pop_sseq()
    chk.bounded("substrate operators natively: linearity, adjointness, typing, input frame on generated inputs", bound=f"{cases} (operator, input) cases, 1e-11 (NUFFT 1e-7)",
                cases=cases, nontrivial=cases, failures=fails, kind="B-runtime")
    chk.note("abstract bases (LinearOperator, EndomorphicOperator) have no action of their own; InversionEnabler: C14; SamplingEnabler: C13; FFT/Hartley/"
             "HarmonicTransform on RG spaces: C09; DOFDistributor/PowerDistributor: C10; adapters, sums and chains: C01")


def _native(which):
    def run(ob):
        import json
        import os
        import subprocess
        import sys
        here = os.path.dirname(os.path.abspath(__file__))
        p = subprocess.run([sys.executable, os.path.join(here, "native", "C02_native.py"), which], capture_output=True, text=True, timeout=600)
        try:
            return json.loads(p.stdout.strip().splitlines()[-1])
        except Exception:  # noqa: BLE001
            return dict(reproduced=False, error=p.stderr[-500:])
    return run


REPLAY = {"OuterProduct(": _native("outer"), "SliceOperator(": _native("slice"), "SandwichOperator.make(": _native("sandwich")}

SECTIONS = [sec_structure, sec_multi, sec_algebra, sec_native]
